open Base
open BinNums
open Datatypes
open List
open Nat

type span = coq_N * coq_N

type arch =
| AChar of char
| ARange of char * char

type leaf =
| LLit of bool * str
| LSep
| LClass of bool * arch list
| LOne
| LZom of bool
| LTree of bool

type tok =
| TLeaf of span * leaf
| TAlt of span * tok list
| TCat of span * tok list
| TRep of span * tok * coq_N * coq_N option

(** val tspan : tok -> span **)

let tspan = function
| TLeaf (sp, _) -> sp
| TAlt (sp, _) -> sp
| TCat (sp, _) -> sp
| TRep (sp, _, _, _) -> sp

(** val concatenation : tok -> tok list **)

let concatenation t = match t with
| TCat (_, ts) -> ts
| _ -> t :: []

(** val children : tok -> tok list **)

let children = function
| TLeaf (_, _) -> []
| TAlt (_, bs) -> bs
| TCat (_, ts) -> ts
| TRep (_, b, _, _) -> b :: []

(** val is_branch : tok -> bool **)

let is_branch = function
| TLeaf (_, _) -> false
| _ -> true

(** val is_disjunctive : tok -> bool **)

let is_disjunctive = function
| TAlt (_, _) -> true
| _ -> false

type boundary =
| BComponent
| BSeparator

(** val leaf_boundary : leaf -> boundary option **)

let leaf_boundary = function
| LSep -> Some BSeparator
| LTree _ -> Some BComponent
| _ -> None

(** val tboundary : tok -> boundary option **)

let tboundary = function
| TLeaf (_, l) -> leaf_boundary l
| _ -> None

(** val is_boundary : tok -> bool **)

let is_boundary t =
  match tboundary t with
  | Some _ -> true
  | None -> false

(** val leaf_is_rooting : leaf -> bool **)

let leaf_is_rooting = function
| LSep -> true
| LTree root -> root
| _ -> false

(** val leaf_is_capturing : leaf -> bool **)

let leaf_is_capturing = function
| LLit (_, _) -> false
| LSep -> false
| _ -> true

(** val is_capturing : tok -> bool **)

let is_capturing = function
| TLeaf (_, l) -> leaf_is_capturing l
| TCat (_, _) -> false
| _ -> true

(** val is_literal : tok -> bool **)

let is_literal = function
| TLeaf (_, l) -> (match l with
                   | LLit (_, _) -> true
                   | _ -> false)
| _ -> false

(** val is_zom : tok -> bool **)

let is_zom = function
| TLeaf (_, l) -> (match l with
                   | LZom _ -> true
                   | _ -> false)
| _ -> false

(** val is_tree : tok -> bool **)

let is_tree = function
| TLeaf (_, l) -> (match l with
                   | LTree _ -> true
                   | _ -> false)
| _ -> false

(** val is_sep : tok -> bool **)

let is_sep = function
| TLeaf (_, l) -> (match l with
                   | LSep -> true
                   | _ -> false)
| _ -> false

(** val tok_empty : tok **)

let tok_empty =
  TLeaf ((N0, N0), (LLit (false, [])))

(** val tok_is_empty : tok -> bool **)

let tok_is_empty = function
| TLeaf (_, l) ->
  (match l with
   | LLit (ci, s) ->
     if ci then false else (match s with
                            | [] -> true
                            | _ :: _ -> false)
   | _ -> false)
| _ -> false

(** val tsize : tok -> nat **)

let rec tsize = function
| TLeaf (_, _) -> S O
| TAlt (_, bs) -> S (fold_right (fun b a -> add (tsize b) a) O bs)
| TCat (_, ts) -> S (fold_right (fun b a -> add (tsize b) a) O ts)
| TRep (_, b, _, _) -> S (tsize b)

(** val has_boundary : tok -> bool **)

let rec has_boundary = function
| TLeaf (_, l) -> (match leaf_boundary l with
                   | Some _ -> true
                   | None -> false)
| TAlt (_, bs) -> existsb has_boundary bs
| TCat (_, ts) -> existsb has_boundary ts
| TRep (_, b, _, _) -> has_boundary b

(** val bfs_levels : nat -> tok list -> tok list **)

let rec bfs_levels fuel level =
  match fuel with
  | O -> level
  | S f ->
    (match level with
     | [] -> []
     | _ :: _ -> app level (bfs_levels f (flat_map children level)))

(** val bfs : tok -> tok list **)

let bfs t =
  bfs_levels (tsize t) (t :: [])
