open Base
open BinNums
open Datatypes
open List
open Nat

type span = coq_N * coq_N

type arch =
| AChar of char
| ARange of char * char

type leaf =
| LLit of bool * str
| LSep
| LClass of bool * arch list
| LOne
| LZom of bool
| LTree of bool

type tok =
| TLeaf of span * leaf
| TAlt of span * tok list
| TCat of span * tok list
| TRep of span * tok * coq_N * coq_N option

val tspan : tok -> span

val concatenation : tok -> tok list

val children : tok -> tok list

val is_branch : tok -> bool

val is_disjunctive : tok -> bool

type boundary =
| BComponent
| BSeparator

val leaf_boundary : leaf -> boundary option

val tboundary : tok -> boundary option

val is_boundary : tok -> bool

val leaf_is_rooting : leaf -> bool

val leaf_is_capturing : leaf -> bool

val is_capturing : tok -> bool

val is_literal : tok -> bool

val is_zom : tok -> bool

val is_tree : tok -> bool

val is_sep : tok -> bool

val tok_empty : tok

val tok_is_empty : tok -> bool

val tsize : tok -> nat

val has_boundary : tok -> bool

val bfs_levels : nat -> tok list -> tok list

val bfs : tok -> tok list
