open BinNums
open BinPos
open Datatypes

module N =
 struct
  (** val succ_double : coq_N -> coq_N **)

  let succ_double = function
  | N0 -> Npos Coq_xH
  | Npos p -> Npos (Coq_xI p)

  (** val double : coq_N -> coq_N **)

  let double = function
  | N0 -> N0
  | Npos p -> Npos (Coq_xO p)

  (** val pred : coq_N -> coq_N **)

  let pred = function
  | N0 -> N0
  | Npos p -> Pos.pred_N p

  (** val add : coq_N -> coq_N -> coq_N **)

  let add n m =
    match n with
    | N0 -> m
    | Npos p -> (match m with
                 | N0 -> n
                 | Npos q -> Npos (Pos.add p q))

  (** val sub : coq_N -> coq_N -> coq_N **)

  let sub n m =
    match n with
    | N0 -> N0
    | Npos n' ->
      (match m with
       | N0 -> n
       | Npos m' ->
         (match Pos.sub_mask n' m' with
          | Pos.IsPos p -> Npos p
          | _ -> N0))

  (** val mul : coq_N -> coq_N -> coq_N **)

  let mul n m =
    match n with
    | N0 -> N0
    | Npos p -> (match m with
                 | N0 -> N0
                 | Npos q -> Npos (Pos.mul p q))

  (** val compare : coq_N -> coq_N -> comparison **)

  let compare n m =
    match n with
    | N0 -> (match m with
             | N0 -> Eq
             | Npos _ -> Lt)
    | Npos n' -> (match m with
                  | N0 -> Gt
                  | Npos m' -> Pos.compare n' m')

  (** val eqb : coq_N -> coq_N -> bool **)

  let eqb n m =
    match n with
    | N0 -> (match m with
             | N0 -> true
             | Npos _ -> false)
    | Npos p -> (match m with
                 | N0 -> false
                 | Npos q -> Pos.eqb p q)

  (** val leb : coq_N -> coq_N -> bool **)

  let leb x y =
    match compare x y with
    | Gt -> false
    | _ -> true

  (** val ltb : coq_N -> coq_N -> bool **)

  let ltb x y =
    match compare x y with
    | Lt -> true
    | _ -> false

  (** val min : coq_N -> coq_N -> coq_N **)

  let min n n' =
    match compare n n' with
    | Gt -> n'
    | _ -> n

  (** val max : coq_N -> coq_N -> coq_N **)

  let max n n' =
    match compare n n' with
    | Gt -> n
    | _ -> n'

  (** val log2 : coq_N -> coq_N **)

  let log2 = function
  | N0 -> N0
  | Npos p0 ->
    (match p0 with
     | Coq_xI p -> Npos (Pos.size p)
     | Coq_xO p -> Npos (Pos.size p)
     | Coq_xH -> N0)

  (** val pos_div_eucl : positive -> coq_N -> coq_N * coq_N **)

  let rec pos_div_eucl a b =
    match a with
    | Coq_xI a' ->
      let (q, r) = pos_div_eucl a' b in
      let r' = succ_double r in
      if leb b r' then ((succ_double q), (sub r' b)) else ((double q), r')
    | Coq_xO a' ->
      let (q, r) = pos_div_eucl a' b in
      let r' = double r in
      if leb b r' then ((succ_double q), (sub r' b)) else ((double q), r')
    | Coq_xH ->
      (match b with
       | N0 -> (N0, (Npos Coq_xH))
       | Npos p ->
         (match p with
          | Coq_xH -> ((Npos Coq_xH), N0)
          | _ -> (N0, (Npos Coq_xH))))

  (** val div_eucl : coq_N -> coq_N -> coq_N * coq_N **)

  let div_eucl a b =
    match a with
    | N0 -> (N0, N0)
    | Npos na -> (match b with
                  | N0 -> (N0, a)
                  | Npos _ -> pos_div_eucl na b)

  (** val div : coq_N -> coq_N -> coq_N **)

  let div a b =
    fst (div_eucl a b)

  (** val modulo : coq_N -> coq_N -> coq_N **)

  let modulo a b =
    snd (div_eucl a b)

  (** val to_nat : coq_N -> nat **)

  let to_nat = function
  | N0 -> O
  | Npos p -> Pos.to_nat p

  (** val of_nat : nat -> coq_N **)

  let of_nat = function
  | O -> N0
  | S n' -> Npos (Pos.of_succ_nat n')
 end
