open Base
open BinNat
open BinNums
open Datatypes
open Encode
open Fold
open List
open Nat
open Regex
open Token
open Variance

val number_from : coq_N -> tok list -> (coq_N * span) list

val captures : tok -> (coq_N * span) list

val take_nonboundary : tok list -> tok list * tok list

val components_f : nat -> tok list -> tok list list

val components : tok list -> tok list list

val component_literal : tok list -> str option

val coq_DOT : char

val is_semantic : str -> bool

val semantic_loop : nat -> tok list list -> bool

val has_semantic_literals : tok -> bool

val enc_component : tok list -> re

val take_until_boundary : tok list list -> tok list list

val component_programs : tok -> re list

val is_inv : ('a1, 'a2) var -> bool

val prefix_loop :
  (char -> bool) -> coq_N -> tok list -> (coq_N * str) option ->
  (coq_N * str) option -> (coq_N * str) option res

val invariant_text_prefix : (char -> bool) -> tok -> (coq_N * str) res

val rep_roundtrip : coq_N -> coq_N option -> (coq_N * coq_N option) res

val fold_map : (span -> span) -> tok -> tok res

val drop_bytes : str -> coq_N -> str option

val unroot : tok -> tok * coq_N

val sum_spans : tok list -> coq_N

type partition_result =
| PartNone of str
| PartSome of str * tok * str

val partition : (char -> bool) -> str -> tok -> partition_result res

val any_tree : tok list -> tok res

val into_non_trivial : tok -> tok

val alternatives_loop : nat -> tok list -> tok list

val into_alternatives : tok -> tok list

val not_partition : tok -> (tok option * tok option) res

val coq_GLOB_META : str

val is_meta_character : char -> bool

val is_contextual_meta_character : char -> bool

val escape : str -> str
