open BinNums
open BinPosDef
open Datatypes
open Nat

module Pos :
 sig
  val succ : positive -> positive

  val add : positive -> positive -> positive

  val add_carry : positive -> positive -> positive

  val pred_double : positive -> positive

  val pred_N : positive -> coq_N

  type mask = Pos.mask =
  | IsNul
  | IsPos of positive
  | IsNeg

  val succ_double_mask : mask -> mask

  val double_mask : mask -> mask

  val double_pred_mask : positive -> mask

  val sub_mask : positive -> positive -> mask

  val sub_mask_carry : positive -> positive -> mask

  val mul : positive -> positive -> positive

  val size : positive -> positive

  val compare_cont : comparison -> positive -> positive -> comparison

  val compare : positive -> positive -> comparison

  val eqb : positive -> positive -> bool

  val iter_op : ('a1 -> 'a1 -> 'a1) -> positive -> 'a1 -> 'a1

  val to_nat : positive -> nat

  val of_succ_nat : nat -> positive
 end
