open Base
open BinNat
open BinNums
open Datatypes
open List
open Nat
open Token

type re =
| RLit of bool * str
| RSep
| RNsep
| RClass of bool * arch list
| RNever
| RDotStar
| REmpty
| RCat of re * re
| RAlt of re * re
| ROpt of re
| RStar of bool * re
| RRep of re * coq_N * coq_N option
| RGroup of bool * re

(** val coq_RE_META : str **)

let coq_RE_META =
  (Npos (Coq_xO (Coq_xO (Coq_xI (Coq_xI (Coq_xI (Coq_xO
    Coq_xH))))))) :: ((Npos (Coq_xO (Coq_xI (Coq_xI (Coq_xI (Coq_xO
    Coq_xH)))))) :: ((Npos (Coq_xI (Coq_xI (Coq_xO (Coq_xI (Coq_xO
    Coq_xH)))))) :: ((Npos (Coq_xO (Coq_xI (Coq_xO (Coq_xI (Coq_xO
    Coq_xH)))))) :: ((Npos (Coq_xI (Coq_xI (Coq_xI (Coq_xI (Coq_xI
    Coq_xH)))))) :: ((Npos (Coq_xO (Coq_xO (Coq_xO (Coq_xI (Coq_xO
    Coq_xH)))))) :: ((Npos (Coq_xI (Coq_xO (Coq_xO (Coq_xI (Coq_xO
    Coq_xH)))))) :: ((Npos (Coq_xO (Coq_xO (Coq_xI (Coq_xI (Coq_xI (Coq_xI
    Coq_xH))))))) :: ((Npos (Coq_xI (Coq_xI (Coq_xO (Coq_xI (Coq_xI (Coq_xO
    Coq_xH))))))) :: ((Npos (Coq_xI (Coq_xO (Coq_xI (Coq_xI (Coq_xI (Coq_xO
    Coq_xH))))))) :: ((Npos (Coq_xI (Coq_xI (Coq_xO (Coq_xI (Coq_xI (Coq_xI
    Coq_xH))))))) :: ((Npos (Coq_xI (Coq_xO (Coq_xI (Coq_xI (Coq_xI (Coq_xI
    Coq_xH))))))) :: ((Npos (Coq_xO (Coq_xI (Coq_xI (Coq_xI (Coq_xI (Coq_xO
    Coq_xH))))))) :: ((Npos (Coq_xO (Coq_xO (Coq_xI (Coq_xO (Coq_xO
    Coq_xH)))))) :: ((Npos (Coq_xI (Coq_xI (Coq_xO (Coq_xO (Coq_xO
    Coq_xH)))))) :: ((Npos (Coq_xO (Coq_xI (Coq_xI (Coq_xO (Coq_xO
    Coq_xH)))))) :: ((Npos (Coq_xI (Coq_xO (Coq_xI (Coq_xI (Coq_xO
    Coq_xH)))))) :: ((Npos (Coq_xO (Coq_xI (Coq_xI (Coq_xI (Coq_xI (Coq_xI
    Coq_xH))))))) :: [])))))))))))))))))

(** val re_escape : str -> str **)

let rec re_escape = function
| [] -> []
| c :: r ->
  if mem c coq_RE_META
  then coq_BSLASH :: (c :: (re_escape r))
  else c :: (re_escape r)

(** val dec_digits : nat -> coq_N -> str -> str **)

let rec dec_digits fuel n acc =
  match fuel with
  | O -> acc
  | S f ->
    let acc' =
      (N.add (Npos (Coq_xO (Coq_xO (Coq_xO (Coq_xO (Coq_xI Coq_xH))))))
        (N.modulo n (Npos (Coq_xO (Coq_xI (Coq_xO Coq_xH)))))) :: acc
    in
    if N.eqb (N.div n (Npos (Coq_xO (Coq_xI (Coq_xO Coq_xH))))) N0
    then acc'
    else dec_digits f (N.div n (Npos (Coq_xO (Coq_xI (Coq_xO Coq_xH))))) acc'

(** val dec : coq_N -> str **)

let dec n =
  dec_digits (S (N.to_nat (N.log2 n))) n []

(** val print_arch : arch -> str **)

let print_arch = function
| AChar c -> re_escape (c :: [])
| ARange (x, y) ->
  app (re_escape (x :: []))
    (app ((Npos (Coq_xI (Coq_xO (Coq_xI (Coq_xI (Coq_xO Coq_xH)))))) :: [])
      (re_escape (y :: [])))

(** val arch_valid : arch -> bool **)

let arch_valid = function
| AChar _ -> true
| ARange (x, y) -> N.leb x y

(** val s_flagoff_open : str **)

let s_flagoff_open =
  (Npos (Coq_xO (Coq_xO (Coq_xO (Coq_xI (Coq_xO Coq_xH)))))) :: ((Npos
    (Coq_xI (Coq_xI (Coq_xI (Coq_xI (Coq_xI Coq_xH)))))) :: ((Npos (Coq_xI
    (Coq_xO (Coq_xI (Coq_xI (Coq_xO Coq_xH)))))) :: ((Npos (Coq_xI (Coq_xO
    (Coq_xO (Coq_xI (Coq_xO (Coq_xI Coq_xH))))))) :: ((Npos (Coq_xO (Coq_xI
    (Coq_xO (Coq_xI (Coq_xI Coq_xH)))))) :: []))))

(** val s_nsep : str **)

let s_nsep =
  (Npos (Coq_xI (Coq_xI (Coq_xO (Coq_xI (Coq_xI (Coq_xO
    Coq_xH))))))) :: ((Npos (Coq_xO (Coq_xI (Coq_xI (Coq_xI (Coq_xI (Coq_xO
    Coq_xH))))))) :: ((Npos (Coq_xI (Coq_xI (Coq_xI (Coq_xI (Coq_xO
    Coq_xH)))))) :: ((Npos (Coq_xI (Coq_xO (Coq_xI (Coq_xI (Coq_xI (Coq_xO
    Coq_xH))))))) :: [])))

(** val s_sep : str **)

let s_sep =
  (Npos (Coq_xI (Coq_xI (Coq_xO (Coq_xI (Coq_xI (Coq_xO
    Coq_xH))))))) :: ((Npos (Coq_xI (Coq_xI (Coq_xI (Coq_xI (Coq_xO
    Coq_xH)))))) :: ((Npos (Coq_xI (Coq_xO (Coq_xI (Coq_xI (Coq_xI (Coq_xO
    Coq_xH))))))) :: []))

(** val s_never : str **)

let s_never =
  (Npos (Coq_xI (Coq_xI (Coq_xO (Coq_xI (Coq_xI (Coq_xO
    Coq_xH))))))) :: ((Npos (Coq_xI (Coq_xO (Coq_xO (Coq_xO (Coq_xO (Coq_xI
    Coq_xH))))))) :: ((Npos (Coq_xO (Coq_xI (Coq_xI (Coq_xO (Coq_xO
    Coq_xH)))))) :: ((Npos (Coq_xO (Coq_xI (Coq_xI (Coq_xO (Coq_xO
    Coq_xH)))))) :: ((Npos (Coq_xO (Coq_xI (Coq_xO (Coq_xO (Coq_xO (Coq_xI
    Coq_xH))))))) :: ((Npos (Coq_xI (Coq_xO (Coq_xI (Coq_xI (Coq_xI (Coq_xO
    Coq_xH))))))) :: [])))))

(** val s_dotstar : str **)

let s_dotstar =
  (Npos (Coq_xO (Coq_xO (Coq_xO (Coq_xI (Coq_xO Coq_xH)))))) :: ((Npos
    (Coq_xI (Coq_xI (Coq_xI (Coq_xI (Coq_xI Coq_xH)))))) :: ((Npos (Coq_xI
    (Coq_xI (Coq_xO (Coq_xO (Coq_xI (Coq_xI Coq_xH))))))) :: ((Npos (Coq_xO
    (Coq_xI (Coq_xO (Coq_xI (Coq_xI Coq_xH)))))) :: ((Npos (Coq_xO (Coq_xI
    (Coq_xI (Coq_xI (Coq_xO Coq_xH)))))) :: ((Npos (Coq_xO (Coq_xI (Coq_xO
    (Coq_xI (Coq_xO Coq_xH)))))) :: ((Npos (Coq_xI (Coq_xO (Coq_xO (Coq_xI
    (Coq_xO Coq_xH)))))) :: []))))))

(** val print : re -> str **)

let rec print = function
| RLit (ci, s) ->
  app
    (if ci
     then (Npos (Coq_xO (Coq_xO (Coq_xO (Coq_xI (Coq_xO
            Coq_xH)))))) :: ((Npos (Coq_xI (Coq_xI (Coq_xI (Coq_xI (Coq_xI
            Coq_xH)))))) :: ((Npos (Coq_xI (Coq_xO (Coq_xO (Coq_xI (Coq_xO
            (Coq_xI Coq_xH))))))) :: ((Npos (Coq_xI (Coq_xO (Coq_xO (Coq_xI
            (Coq_xO Coq_xH)))))) :: [])))
     else (Npos (Coq_xO (Coq_xO (Coq_xO (Coq_xI (Coq_xO
            Coq_xH)))))) :: ((Npos (Coq_xI (Coq_xI (Coq_xI (Coq_xI (Coq_xI
            Coq_xH)))))) :: ((Npos (Coq_xI (Coq_xO (Coq_xI (Coq_xI (Coq_xO
            Coq_xH)))))) :: ((Npos (Coq_xI (Coq_xO (Coq_xO (Coq_xI (Coq_xO
            (Coq_xI Coq_xH))))))) :: ((Npos (Coq_xI (Coq_xO (Coq_xO (Coq_xI
            (Coq_xO Coq_xH)))))) :: []))))) (re_escape s)
| RSep -> s_sep
| RNsep -> s_nsep
| RClass (neg, a) ->
  app s_flagoff_open
    (app ((Npos (Coq_xI (Coq_xI (Coq_xO (Coq_xI (Coq_xI (Coq_xO
      Coq_xH))))))) :: [])
      (app
        (if neg
         then app ((Npos (Coq_xO (Coq_xI (Coq_xI (Coq_xI (Coq_xI (Coq_xO
                Coq_xH))))))) :: [])
                (app (flat_map print_arch a) ((Npos (Coq_xI (Coq_xI (Coq_xI
                  (Coq_xI (Coq_xO Coq_xH)))))) :: []))
         else app (flat_map print_arch a)
                (app ((Npos (Coq_xO (Coq_xI (Coq_xI (Coq_xO (Coq_xO
                  Coq_xH)))))) :: ((Npos (Coq_xO (Coq_xI (Coq_xI (Coq_xO
                  (Coq_xO Coq_xH)))))) :: [])) s_nsep)) ((Npos (Coq_xI
        (Coq_xO (Coq_xI (Coq_xI (Coq_xI (Coq_xO Coq_xH))))))) :: ((Npos
        (Coq_xI (Coq_xO (Coq_xO (Coq_xI (Coq_xO Coq_xH)))))) :: []))))
| RNever -> s_never
| RDotStar -> s_dotstar
| REmpty -> []
| RCat (a, b) -> app (print a) (print b)
| RAlt (a, b) ->
  app (print a)
    (app ((Npos (Coq_xO (Coq_xO (Coq_xI (Coq_xI (Coq_xI (Coq_xI
      Coq_xH))))))) :: []) (print b))
| ROpt a ->
  app (print a) ((Npos (Coq_xI (Coq_xI (Coq_xI (Coq_xI (Coq_xI
    Coq_xH)))))) :: [])
| RStar (lazy0, a) ->
  app (print a)
    (app ((Npos (Coq_xO (Coq_xI (Coq_xO (Coq_xI (Coq_xO Coq_xH)))))) :: [])
      (if lazy0
       then (Npos (Coq_xI (Coq_xI (Coq_xI (Coq_xI (Coq_xI Coq_xH)))))) :: []
       else []))
| RRep (a, lo, hi) ->
  app (print a)
    (app ((Npos (Coq_xI (Coq_xI (Coq_xO (Coq_xI (Coq_xI (Coq_xI
      Coq_xH))))))) :: [])
      (app (dec lo)
        (app ((Npos (Coq_xO (Coq_xO (Coq_xI (Coq_xI (Coq_xO
          Coq_xH)))))) :: [])
          (app (match hi with
                | Some h -> dec h
                | None -> []) ((Npos (Coq_xI (Coq_xO (Coq_xI (Coq_xI (Coq_xI
            (Coq_xI Coq_xH))))))) :: [])))))
| RGroup (cap, a) ->
  app
    (if cap
     then (Npos (Coq_xO (Coq_xO (Coq_xO (Coq_xI (Coq_xO Coq_xH)))))) :: []
     else (Npos (Coq_xO (Coq_xO (Coq_xO (Coq_xI (Coq_xO
            Coq_xH)))))) :: ((Npos (Coq_xI (Coq_xI (Coq_xI (Coq_xI (Coq_xI
            Coq_xH)))))) :: ((Npos (Coq_xO (Coq_xI (Coq_xO (Coq_xI (Coq_xI
            Coq_xH)))))) :: [])))
    (app (print a) ((Npos (Coq_xI (Coq_xO (Coq_xO (Coq_xI (Coq_xO
      Coq_xH)))))) :: []))

(** val print_program : re -> str **)

let print_program r =
  app ((Npos (Coq_xO (Coq_xI (Coq_xI (Coq_xI (Coq_xI (Coq_xO
    Coq_xH))))))) :: [])
    (app (print r) ((Npos (Coq_xO (Coq_xO (Coq_xI (Coq_xO (Coq_xO
      Coq_xH)))))) :: []))

(** val ngroups : re -> nat **)

let rec ngroups = function
| RCat (a, b) -> add (ngroups a) (ngroups b)
| RAlt (a, b) -> add (ngroups a) (ngroups b)
| ROpt a -> ngroups a
| RStar (_, a) -> ngroups a
| RRep (a, _, _) -> ngroups a
| RGroup (cap, a) -> add (if cap then S O else O) (ngroups a)
| _ -> O

(** val lit_char_match :
    (char -> char list) -> bool -> char -> char -> bool **)

let lit_char_match orbit ci c d =
  (||) (N.eqb c d) ((&&) ci (mem d (orbit c)))

(** val arch_in : char -> arch -> bool **)

let arch_in c = function
| AChar d -> N.eqb c d
| ARange (x, y) -> (&&) (N.leb x c) (N.leb c y)

(** val class_match : bool -> arch list -> char -> bool **)

let class_match neg a c =
  (&&) (negb (N.eqb c coq_SEP)) (xorb neg (existsb (arch_in c) a))

type caps = (nat * (nat * nat)) list

(** val set_cap : nat -> (nat * nat) -> caps -> caps **)

let set_cap g se c =
  (g, se) :: (filter (fun x -> negb (eqb (fst x) g)) c)

(** val get_cap : nat -> caps -> (nat * nat) option **)

let rec get_cap g = function
| [] -> None
| p :: c' -> let (g', se) = p in if eqb g g' then Some se else get_cap g c'

(** val lit_match :
    (char -> char list) -> bool -> str -> str -> str option **)

let rec lit_match orbit ci s w =
  match s with
  | [] -> Some w
  | c :: s' ->
    (match w with
     | [] -> None
     | d :: w' ->
       if lit_char_match orbit ci c d then lit_match orbit ci s' w' else None)

(** val suffixes : str -> str list **)

let rec suffixes w = match w with
| [] -> [] :: []
| _ :: w' -> w :: (suffixes w')

(** val first_some : ('a1 -> 'a2 option) -> 'a1 list -> 'a2 option **)

let rec first_some f = function
| [] -> None
| a :: l' -> (match f a with
              | Some b -> Some b
              | None -> first_some f l')

type coq_K = str -> caps -> caps option

(** val m :
    (char -> char list) -> nat -> nat -> re -> nat -> str -> caps -> coq_K ->
    caps option **)

let rec m orbit total fuel r g w c k =
  match fuel with
  | O -> None
  | S f ->
    (match r with
     | RLit (ci, s) ->
       (match lit_match orbit ci s w with
        | Some w' -> k w' c
        | None -> None)
     | RSep ->
       (match w with
        | [] -> None
        | d :: w' -> if N.eqb d coq_SEP then k w' c else None)
     | RNsep ->
       (match w with
        | [] -> None
        | d :: w' -> if N.eqb d coq_SEP then None else k w' c)
     | RClass (neg, a) ->
       (match w with
        | [] -> None
        | d :: w' -> if class_match neg a d then k w' c else None)
     | RNever -> None
     | RDotStar -> first_some (fun w' -> k w' c) (rev (suffixes w))
     | REmpty -> k w c
     | RCat (a, b) ->
       m orbit total f a g w c (fun w' c' ->
         m orbit total f b (add g (ngroups a)) w' c' k)
     | RAlt (a, b) ->
       (match m orbit total f a g w c k with
        | Some x -> Some x
        | None -> m orbit total f b (add g (ngroups a)) w c k)
     | ROpt a ->
       (match m orbit total f a g w c k with
        | Some x -> Some x
        | None -> k w c)
     | RStar (lazy0, a) ->
       let more =
         m orbit total f a g w c (fun w' c' ->
           if ltb (length w') (length w)
           then m orbit total f (RStar (lazy0, a)) g w' c' k
           else None)
       in
       if lazy0
       then (match k w c with
             | Some x -> Some x
             | None -> more)
       else (match more with
             | Some x -> Some x
             | None -> k w c)
     | RRep (a, lo, hi) ->
       let can_stop = N.eqb lo N0 in
       let can_more = match hi with
                      | Some h -> N.ltb N0 h
                      | None -> true in
       let lo' = N.pred lo in
       let hi' = match hi with
                 | Some h -> Some (N.pred h)
                 | None -> None in
       let more =
         if can_more
         then m orbit total f a g w c (fun w' c' ->
                if (||) (ltb (length w') (length w)) (negb can_stop)
                then m orbit total f (RRep (a, lo', hi')) g w' c' k
                else None)
         else None
       in
       (match more with
        | Some x -> Some x
        | None -> if can_stop then k w c else None)
     | RGroup (cap, a) ->
       if cap
       then let start = sub total (length w) in
            m orbit total f a (S g) w c (fun w' c' ->
              k w' (set_cap g (start, (sub total (length w'))) c'))
       else m orbit total f a g w c k)

(** val re_size : re -> nat **)

let rec re_size = function
| RCat (a, b) -> S (add (re_size a) (re_size b))
| RAlt (a, b) -> S (add (re_size a) (re_size b))
| ROpt a -> S (re_size a)
| RStar (_, a) -> S (re_size a)
| RRep (a, _, _) -> S (re_size a)
| RGroup (_, a) -> S (re_size a)
| _ -> S O
