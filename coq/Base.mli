open BinNat
open BinNums
open Datatypes
open List

type char = coq_N

type str = char list

val coq_SEP : char

val coq_BSLASH : char

val utf8_len : char -> coq_N

val blen : str -> coq_N

val usize_max1 : coq_N

val str_eqb : str -> str -> bool

val mem : char -> str -> bool

val is_nil : 'a1 list -> bool

type panic_site =
| PanicOverflow
| PanicUnreachable
| PanicCompile
| PanicOther

type 'a res =
| Ok of 'a
| Panic of panic_site

val rbind : 'a1 res -> ('a1 -> 'a2 res) -> 'a2 res

val rmap : ('a1 -> 'a2) -> 'a1 res -> 'a2 res

val cadd : coq_N -> coq_N -> coq_N res

val cmul : coq_N -> coq_N -> coq_N res

val rmapM : ('a1 -> 'a2 res) -> 'a1 list -> 'a2 list res

val rfold : ('a1 -> 'a1 -> 'a1 res) -> 'a1 -> 'a1 list -> 'a1 res

val rreduce : ('a1 -> 'a1 -> 'a1 res) -> 'a1 list -> 'a1 option res

val reduce_pure : ('a1 -> 'a1 -> 'a1) -> 'a1 list -> 'a1 option

val last_opt : 'a1 list -> 'a1 option

val repeat_list : 'a1 list -> nat -> 'a1 list
