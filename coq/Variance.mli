open Base
open BinNat
open BinNums
open Datatypes
open List

type bvr =
| BLower of coq_N
| BUpper of coq_N
| BBoth of coq_N * coq_N

type 'b bnd =
| Bounded of 'b
| Unbounded

type ('t, 'b) var =
| Inv of 't
| Var of 'b bnd

type vrange = bvr bnd

type nrange = (coq_N, bvr) var

type nbound =
| NBZero
| NBUnb
| NBNum of coq_N

val bvr_eqb : bvr -> bvr -> bool

val try_lower_upper : coq_N -> coq_N option -> bvr option

val from_closed_open : coq_N -> coq_N option -> nrange

val nbound_of_n : coq_N -> nbound

val bvr_lower : bvr -> nbound

val bvr_upper : bvr -> nbound res

val nr_lower : nrange -> nbound

val nr_upper : nrange -> nbound res

val lower_usize : nbound -> coq_N

val upper_usize : nbound -> coq_N option

val nb_product : nbound -> nbound -> nbound res

val by_bound_product : nrange -> nrange -> nrange res

val lower_min : nbound -> nbound -> nbound

val upper_max : nbound -> nbound -> nbound

val bvr_union : bvr -> nrange -> vrange res

val bvr_translation : bvr -> coq_N -> bvr res

val bvr_conj : bvr -> bvr -> bvr res

val bvr_open_upper : bvr -> vrange

val bvr_product : bvr -> bvr -> vrange res

val bvr_product_nz : bvr -> coq_N -> bvr res

type nvar = (coq_N, bvr) var

val nvar_eqb : nvar -> nvar -> bool

val n_into_lower_bound : coq_N -> vrange

val n_bound : coq_N -> coq_N -> vrange

val nvar_conj : nvar -> nvar -> nvar res

val nvar_disj : nvar -> nvar -> nvar res

val nvar_product : nvar -> nrange -> nvar res

type termination =
| TOpen
| TFirst
| TLast
| TClosed
| TCoalescent

type coalescence =
| CLeft of termination
| CRight of termination
| CNeither of termination

val term_eqb : termination -> termination -> bool

val term_conj : termination -> termination -> coalescence

type sterm = termination * nvar

val sterm_eqb : sterm -> sterm -> bool

val sterm_finalize : sterm -> nvar res

val sterm_conj : sterm -> sterm -> sterm res

val set_insert : sterm -> sterm list -> sterm list

val set_of_list : sterm list -> sterm list

type bterm =
| BConj of sterm
| BDisj of sterm list

val bterm_zero : bterm

val bterm_one : bterm

val bterm_unbounded : bterm

val bterm_conj : bterm -> bterm -> bterm res

val bterm_disj : bterm -> bterm -> bterm

val sterm_product : sterm -> nrange -> sterm res

val bterm_product : bterm -> nrange -> bterm res

val bterm_finalize : bterm -> nvar res

type coq_when =
| Always
| Sometimes
| Never

val when_and : coq_when -> coq_when -> coq_when

val when_or : coq_when -> coq_when -> coq_when

val when_certainty : coq_when -> coq_when -> coq_when

val when_of_bool : bool -> coq_when

val nvar_is_exhaustive : nvar -> bool

val bterm_is_exhaustive : bterm -> coq_when

type fragment =
| FNominal of str
| FStructural of str

type text = fragment list

val frag_str : fragment -> str

val frag_eqb : fragment -> fragment -> bool

val text_eqb : text -> text -> bool

val text_to_string : text -> str

val frag_conj : fragment -> fragment -> text

val text_conj : text -> text -> text

val text_repeated : text -> coq_N -> text res

type tvar = (text, unit) var

val tvar_eqb : tvar -> tvar -> bool

val tvar_conj : tvar -> tvar -> tvar

val tvar_disj : tvar -> tvar -> tvar

val tvar_product : tvar -> nrange -> tvar res
