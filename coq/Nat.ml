open Datatypes

(** val add : nat -> nat -> nat **)

let rec add n m =
  match n with
  | O -> m
  | S p -> S (add p m)

(** val mul : nat -> nat -> nat **)

let rec mul n m =
  match n with
  | O -> O
  | S p -> add m (mul p m)

(** val sub : nat -> nat -> nat **)

let rec sub n m =
  match n with
  | O -> n
  | S k -> (match m with
            | O -> n
            | S l -> sub k l)

(** val eqb : nat -> nat -> bool **)

let rec eqb n m =
  match n with
  | O -> (match m with
          | O -> true
          | S _ -> false)
  | S n' -> (match m with
             | O -> false
             | S m' -> eqb n' m')

(** val leb : nat -> nat -> bool **)

let rec leb n m =
  match n with
  | O -> true
  | S n' -> (match m with
             | O -> false
             | S m' -> leb n' m')

(** val ltb : nat -> nat -> bool **)

let ltb n m =
  leb (S n) m
