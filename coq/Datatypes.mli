
val xorb : bool -> bool -> bool

val negb : bool -> bool

type nat =
| O
| S of nat

val option_map : ('a1 -> 'a2) -> 'a1 option -> 'a2 option

val fst : ('a1 * 'a2) -> 'a1

val snd : ('a1 * 'a2) -> 'a2

val length : 'a1 list -> nat

val app : 'a1 list -> 'a1 list -> 'a1 list

type comparison =
| Eq
| Lt
| Gt
