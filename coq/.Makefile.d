theories/Base.vo theories/Base.glob theories/Base.v.beautified theories/Base.required_vo: theories/Base.v 
theories/Base.vio: theories/Base.v 
theories/Base.vos theories/Base.vok theories/Base.required_vos: theories/Base.v 
theories/Token.vo theories/Token.glob theories/Token.v.beautified theories/Token.required_vo: theories/Token.v theories/Base.vo
theories/Token.vio: theories/Token.v theories/Base.vio
theories/Token.vos theories/Token.vok theories/Token.required_vos: theories/Token.v theories/Base.vos
theories/Parse.vo theories/Parse.glob theories/Parse.v.beautified theories/Parse.required_vo: theories/Parse.v theories/Base.vo theories/Token.vo
theories/Parse.vio: theories/Parse.v theories/Base.vio theories/Token.vio
theories/Parse.vos theories/Parse.vok theories/Parse.required_vos: theories/Parse.v theories/Base.vos theories/Token.vos
theories/Regex.vo theories/Regex.glob theories/Regex.v.beautified theories/Regex.required_vo: theories/Regex.v theories/Base.vo theories/Token.vo
theories/Regex.vio: theories/Regex.v theories/Base.vio theories/Token.vio
theories/Regex.vos theories/Regex.vok theories/Regex.required_vos: theories/Regex.v theories/Base.vos theories/Token.vos
theories/Encode.vo theories/Encode.glob theories/Encode.v.beautified theories/Encode.required_vo: theories/Encode.v theories/Base.vo theories/Token.vo theories/Regex.vo
theories/Encode.vio: theories/Encode.v theories/Base.vio theories/Token.vio theories/Regex.vio
theories/Encode.vos theories/Encode.vok theories/Encode.required_vos: theories/Encode.v theories/Base.vos theories/Token.vos theories/Regex.vos
theories/Variance.vo theories/Variance.glob theories/Variance.v.beautified theories/Variance.required_vo: theories/Variance.v theories/Base.vo theories/Token.vo
theories/Variance.vio: theories/Variance.v theories/Base.vio theories/Token.vio
theories/Variance.vos theories/Variance.vok theories/Variance.required_vos: theories/Variance.v theories/Base.vos theories/Token.vos
theories/Fold.vo theories/Fold.glob theories/Fold.v.beautified theories/Fold.required_vo: theories/Fold.v theories/Base.vo theories/Token.vo theories/Variance.vo theories/Encode.vo
theories/Fold.vio: theories/Fold.v theories/Base.vio theories/Token.vio theories/Variance.vio theories/Encode.vio
theories/Fold.vos theories/Fold.vok theories/Fold.required_vos: theories/Fold.v theories/Base.vos theories/Token.vos theories/Variance.vos theories/Encode.vos
theories/Rule.vo theories/Rule.glob theories/Rule.v.beautified theories/Rule.required_vo: theories/Rule.v theories/Base.vo theories/Token.vo theories/Variance.vo theories/Fold.vo
theories/Rule.vio: theories/Rule.v theories/Base.vio theories/Token.vio theories/Variance.vio theories/Fold.vio
theories/Rule.vos theories/Rule.vok theories/Rule.required_vos: theories/Rule.v theories/Base.vos theories/Token.vos theories/Variance.vos theories/Fold.vos
theories/Query.vo theories/Query.glob theories/Query.v.beautified theories/Query.required_vo: theories/Query.v theories/Base.vo theories/Token.vo theories/Regex.vo theories/Encode.vo theories/Variance.vo theories/Fold.vo theories/Rule.vo theories/Parse.vo
theories/Query.vio: theories/Query.v theories/Base.vio theories/Token.vio theories/Regex.vio theories/Encode.vio theories/Variance.vio theories/Fold.vio theories/Rule.vio theories/Parse.vio
theories/Query.vos theories/Query.vok theories/Query.required_vos: theories/Query.v theories/Base.vos theories/Token.vos theories/Regex.vos theories/Encode.vos theories/Variance.vos theories/Fold.vos theories/Rule.vos theories/Parse.vos
theories/Glob.vo theories/Glob.glob theories/Glob.v.beautified theories/Glob.required_vo: theories/Glob.v theories/Base.vo theories/Token.vo theories/Parse.vo theories/Regex.vo theories/Encode.vo theories/Variance.vo theories/Fold.vo theories/Rule.vo theories/Query.vo
theories/Glob.vio: theories/Glob.v theories/Base.vio theories/Token.vio theories/Parse.vio theories/Regex.vio theories/Encode.vio theories/Variance.vio theories/Fold.vio theories/Rule.vio theories/Query.vio
theories/Glob.vos theories/Glob.vok theories/Glob.required_vos: theories/Glob.v theories/Base.vos theories/Token.vos theories/Parse.vos theories/Regex.vos theories/Encode.vos theories/Variance.vos theories/Fold.vos theories/Rule.vos theories/Query.vos
