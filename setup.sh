#!/bin/bash
# Builds the framework from files on disk only (offline): the Coq development (full .vo build), the
# extraction and OCaml driver, the Rust harness against /repo (hooks on), the character tables.
set -e
cd "$(dirname "$0")"
export CARGO_NET_OFFLINE=true
python3 - <<'PY'
import sys
sys.path.insert(0, 'tools')
import waxlib as W
t = W.build_all(clean=True)
print('setup: built in %.1fs' % t)
PY
