(* walkdriver.ml -- the `walk` command of the model driver: instantiates the layers of Walk.v with the
   model's own programs (component programs, complete program, negation partition) and prints the
   run of the stack machine.  Glue only.

     walk <tree> <mode> <min> <max> <layer>...
       tree   F | E | U | D[<hexname>=<tree>,...]      (the resolved view of the directory given to the walk)
       mode   P | G<hex glob>
       layer  N<hex>[,<hex>...] | F[<hex relative path>:<T|F>,...]                                   *)

module L = Stdlib.List
open BinNums

(* shared helpers are passed in by driver.ml to avoid a dependency cycle *)
let to_str : (string -> coq_N list) ref = ref (fun _ -> [])
let of_str : (coq_N list -> string) ref = ref (fun _ -> "")
let unhex : (string -> string) ref = ref (fun s -> s)
let hex : (string -> string) ref = ref (fun s -> s)
let nat_of_int : (int -> Datatypes.nat) ref = ref (fun _ -> Datatypes.O)
let int_of_nat : (Datatypes.nat -> int) ref = ref (fun _ -> 0)
let full_match : (Regex.re -> coq_N list -> bool) ref = ref (fun _ _ -> false)

exception Bad of string

(* ---- tree syntax ---------------------------------------------------------------------------------- *)
let parse_tree (s : string) : Walk.node =
  let n = String.length s in
  let pos = ref 0 in
  let rec node () : Walk.node =
    if !pos >= n then raise (Bad "tree: unexpected end");
    match s.[!pos] with
    | 'F' -> incr pos; Walk.NFile
    | 'E' -> incr pos; Walk.NErr
    | 'U' -> incr pos; Walk.NDirErr
    | 'D' ->
        incr pos;
        if s.[!pos] <> '[' then raise (Bad "tree: expected [");
        incr pos;
        let kids = ref [] in
        while s.[!pos] <> ']' do
          let start = !pos in
          while s.[!pos] <> '=' do incr pos done;
          let name = String.sub s start (!pos - start) in
          incr pos;
          let k = node () in
          kids := (!to_str (!unhex name), k) :: !kids;
          if s.[!pos] = ',' then incr pos
        done;
        incr pos;
        Walk.NDir (L.rev !kids)
    | c -> raise (Bad (Printf.sprintf "tree: unexpected %c" c))
  in
  node ()

(* ---- layers ------------------------------------------------------------------------------------------ *)
type layer_kind = KGlob | KNot | KFilter

let build_tree (e : string) : Token.tok =
  match Glob.build (!to_str (!unhex e)) with
  | Glob.BuildOk (t, _) -> t
  | _ -> raise (Bad "err")

let pred_of (t : Token.tok option) : (coq_N list -> bool) option =
  match t with
  | None -> None
  | Some t ->
      let r = Encode.encode t in
      Some (fun s -> !full_match r s)

let cmd_walk (has_casing : coq_N -> bool) (args : string list) : string =
  try
    match args with
    | tree :: mode :: mind :: maxd :: layers ->
        let root = parse_tree tree in
        let mind = match int_of_string_opt mind with Some m -> m | None -> 0 in
        let maxd = int_of_string_opt maxd in
        (* the prefix components, the directory the walk starts at and the translated depth window are the model's
           (Walk.split_components, Walk.glob_walk_root, Walk.window_at_pivot inside Walk.glob_walk) *)
        let glob_walk, prefix, prefix_text, first_layer =
          if mode.[0] = 'G' then begin
            let t = build_tree (String.sub mode 1 (String.length mode - 1)) in
            let prefix_text =
              match Query.invariant_text_prefix has_casing t with
              | Base.Ok (_, s) -> s
              | Base.Panic _ -> raise (Bad "panic")
            in
            let prefix = Walk.split_components prefix_text in
            let progs = if Token.tok_is_empty t then [] else Query.component_programs t in
            let progs = L.map (fun r -> fun (c : coq_N list) -> !full_match r c) progs in
            let complete_re = Encode.encode t in
            let complete = fun s -> !full_match complete_re s in
            (true, prefix, prefix_text, Some (progs, complete))
          end
          else (false, [], [], None)
        in
        let pivot = L.length prefix in
        let rest =
          L.map
            (fun l ->
              let body = String.sub l 1 (String.length l - 1) in
              match l.[0] with
              | 'N' ->
                  let es = String.split_on_char ',' body in
                  let tree =
                    match es with
                    | [ e ] -> build_tree e
                    | es -> (
                        match Query.any_tree (L.map build_tree es) with
                        | Base.Ok t -> t
                        | Base.Panic _ -> raise (Bad "panic"))
                  in
                  let ex, nx =
                    match Query.not_partition tree with
                    | Base.Ok p -> p
                    | Base.Panic _ -> raise (Bad "panic")
                  in
                  (KNot, Walk.not_layer prefix glob_walk (pred_of ex) (pred_of nx))
              | _ ->
                  let items = L.filter (fun x -> x <> "") (String.split_on_char ',' body) in
                  let tbl =
                    L.map
                      (fun item ->
                        match String.split_on_char ':' item with
                        | [ p; v ] -> (!to_str (!unhex p), if v = "T" then Walk.VTree else Walk.VFile)
                        | _ -> raise (Bad "bad filter table"))
                      items
                  in
                  (KFilter, Walk.table_layer prefix glob_walk tbl))
            layers
        in
        let maxn = match maxd with Some m -> Some (!nat_of_int m) | None -> None in
        let all, items =
          match first_layer with
          | Some (progs, complete) ->
              ((KGlob, Walk.glob_layer prefix progs complete) :: rest,
               Walk.glob_walk root prefix_text (!nat_of_int mind) maxn progs complete (L.map snd rest))
          | None -> (rest, Walk.walk (!nat_of_int mind) maxn (L.map snd rest) root)
        in
        let path_hex p = !hex (!of_str (Walk.join_path (prefix @ p))) in
        let tag_text = function Walk.Filtrate -> "F" | Walk.RNode -> "N" | Walk.RTree -> "T" in
        let yields =
          L.filter_map
            (function
              | Walk.REntry (e, Walk.Filtrate, _) -> Some (Printf.sprintf "e:%s:%d" (path_hex e.Walk.e_path) (if e.Walk.e_dir then 1 else 0))
              | Walk.REntry _ -> None
              | Walk.RError (p, d) -> Some (Printf.sprintf "x:%s:%d" (path_hex p) (!int_of_nat d)))
            items
        in
        let out = Buffer.create 256 in
        Buffer.add_string out ("ok\tyield=" ^ String.concat ";" yields);
        Buffer.add_string out (Printf.sprintf "\tpivot=%d" pivot);
        let k = ref 0 in
        L.iteri
          (fun i (kind, _) ->
            if kind = KFilter then begin
              let obs =
                L.filter_map
                  (function
                    | Walk.REntry (e, _, seen) -> Some (Printf.sprintf "%s:%s" (path_hex e.Walk.e_path) (tag_text (L.nth seen i)))
                    | Walk.RError _ -> None)
                  items
              in
              Buffer.add_string out (Printf.sprintf "\tobs%d=%s" !k (String.concat ";" obs));
              incr k
            end)
          all;
        (* every entry the walk produced with its final tag (for the pruning oracle) *)
        let feed =
          L.filter_map
            (function
              | Walk.REntry (e, t, _) -> Some (Printf.sprintf "%s:%s" (path_hex e.Walk.e_path) (tag_text t))
              | Walk.RError _ -> None)
            items
        in
        Buffer.add_string out ("\tfeed=" ^ String.concat ";" feed);
        Buffer.contents out
    | _ -> "bad-walk-command"
  with
  | Bad msg -> msg
  | Not_found | Invalid_argument _ | Failure _ -> "bad-walk-command"
