let cmd_walk (_ : string list) : string = "unimplemented"
