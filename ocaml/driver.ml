(* driver.ml -- runs the extracted Coq model on the same line protocol as the Rust harness
   (see harness/src/main.rs).  Everything here is glue: decoding, printing, and instantiation of the
   model's two table parameters (case folding orbits, has_casing) from files dumped by the harness. *)

module L = Stdlib.List
open BinNums

(* ---- numbers -------------------------------------------------------------------------------- *)
let rec pos_of_int (i : int) : positive =
  if i = 1 then Coq_xH
  else if i land 1 = 0 then Coq_xO (pos_of_int (i lsr 1))
  else Coq_xI (pos_of_int (i lsr 1))
let n_of_int (i : int) : coq_N = if i = 0 then N0 else Npos (pos_of_int i)
let rec int_of_pos (p : positive) : int =
  match p with Coq_xH -> 1 | Coq_xO q -> 2 * int_of_pos q | Coq_xI q -> 2 * int_of_pos q + 1
let int_of_n (n : coq_N) : int = match n with N0 -> 0 | Npos p -> int_of_pos p

(* arbitrary precision decimal printing of N (bounds may exceed 2^62) *)
let string_of_n (n : coq_N) : string =
  let s = Regex.dec n in
  String.concat "" (L.map (fun c -> String.make 1 (Char.chr (int_of_n c))) s)

let rec nat_of_int (i : int) : Datatypes.nat = if i <= 0 then Datatypes.O else Datatypes.S (nat_of_int (i - 1))
let nat_of_int i =
  (* tail recursive construction *)
  let rec go acc i = if i <= 0 then acc else go (Datatypes.S acc) (i - 1) in
  ignore nat_of_int; go Datatypes.O i
let rec int_of_nat (n : Datatypes.nat) : int =
  let rec go acc n = match n with Datatypes.O -> acc | Datatypes.S m -> go (acc + 1) m in
  ignore int_of_nat; go 0 n

(* ---- strings ---------------------------------------------------------------------------------- *)
let unhex (s : string) : string =
  if String.length s = 0 || s.[0] <> 'x' then failwith "hex string without prefix";
  let n = (String.length s - 1) / 2 in
  String.init n (fun i -> Char.chr (int_of_string ("0x" ^ String.sub s (1 + 2 * i) 2)))

let hex (s : string) : string =
  let b = Buffer.create (2 * String.length s + 1) in
  Buffer.add_char b 'x';
  String.iter (fun c -> Buffer.add_string b (Printf.sprintf "%02x" (Char.code c))) s;
  Buffer.contents b

(* UTF-8 decode to code points *)
let decode (s : string) : int list =
  let n = String.length s in
  let rec go i acc =
    if i >= n then L.rev acc
    else
      let c = Char.code s.[i] in
      if c < 0x80 then go (i + 1) (c :: acc)
      else if c < 0xe0 then go (i + 2) ((((c land 0x1f) lsl 6) lor (Char.code s.[i + 1] land 0x3f)) :: acc)
      else if c < 0xf0 then
        go (i + 3)
          ((((c land 0x0f) lsl 12) lor ((Char.code s.[i + 1] land 0x3f) lsl 6) lor (Char.code s.[i + 2] land 0x3f)) :: acc)
      else
        go (i + 4)
          ((((c land 0x07) lsl 18) lor ((Char.code s.[i + 1] land 0x3f) lsl 12)
            lor ((Char.code s.[i + 2] land 0x3f) lsl 6) lor (Char.code s.[i + 3] land 0x3f)) :: acc)
  in
  go 0 []

let encode_cp (b : Buffer.t) (c : int) : unit =
  if c < 0x80 then Buffer.add_char b (Char.chr c)
  else if c < 0x800 then begin
    Buffer.add_char b (Char.chr (0xc0 lor (c lsr 6)));
    Buffer.add_char b (Char.chr (0x80 lor (c land 0x3f)))
  end else if c < 0x10000 then begin
    Buffer.add_char b (Char.chr (0xe0 lor (c lsr 12)));
    Buffer.add_char b (Char.chr (0x80 lor ((c lsr 6) land 0x3f)));
    Buffer.add_char b (Char.chr (0x80 lor (c land 0x3f)))
  end else begin
    Buffer.add_char b (Char.chr (0xf0 lor (c lsr 18)));
    Buffer.add_char b (Char.chr (0x80 lor ((c lsr 12) land 0x3f)));
    Buffer.add_char b (Char.chr (0x80 lor ((c lsr 6) land 0x3f)));
    Buffer.add_char b (Char.chr (0x80 lor (c land 0x3f)))
  end

let to_str (s : string) : coq_N list = L.map n_of_int (decode s)
let of_str (s : coq_N list) : string =
  let b = Buffer.create 16 in
  L.iter (fun c -> encode_cp b (int_of_n c)) s;
  Buffer.contents b
let hex_of_str (s : coq_N list) : string = hex (of_str s)

(* ---- tables ------------------------------------------------------------------------------------- *)
let orbit_tbl : (int, coq_N list) Hashtbl.t = Hashtbl.create 4096
let casing_tbl : (int, unit) Hashtbl.t = Hashtbl.create 4096

let read_file (path : string) : string =
  let ic = open_in_bin path in
  let n = in_channel_length ic in
  let s = really_input_string ic n in
  close_in ic; s

let load_tables (dir : string) : unit =
  let fold = String.trim (read_file (Filename.concat dir "fold.tbl")) in
  if fold <> "" then
    L.iter
      (fun item ->
        match String.split_on_char ':' item with
        | [c; os] ->
            Hashtbl.replace orbit_tbl (int_of_string c)
              (L.map (fun o -> n_of_int (int_of_string o)) (String.split_on_char ',' os))
        | _ -> failwith "bad fold table")
      (String.split_on_char ';' fold);
  let casing = String.trim (read_file (Filename.concat dir "casing.tbl")) in
  if casing <> "" then
    L.iter (fun c -> Hashtbl.replace casing_tbl (int_of_string c) ()) (String.split_on_char ',' casing)

let orbit (c : coq_N) : coq_N list = try Hashtbl.find orbit_tbl (int_of_n c) with Not_found -> []
let has_casing (c : coq_N) : bool = Hashtbl.mem casing_tbl (int_of_n c)

(* ---- printing -------------------------------------------------------------------------------------- *)
let span_text ((s, n) : Token.span) : string = Printf.sprintf "%s %s" (string_of_n s) (string_of_n n)

let rec tree_text (t : Token.tok) : string =
  match t with
  | Token.TLeaf (sp, l) -> (
      match l with
      | Token.LLit (ci, s) -> Printf.sprintf "(L %d %s %s)" (if ci then 1 else 0) (hex_of_str s) (span_text sp)
      | Token.LSep -> Printf.sprintf "(S %s)" (span_text sp)
      | Token.LClass (neg, a) ->
          let arch = function
            | Token.AChar c -> Printf.sprintf "c%x" (int_of_n c)
            | Token.ARange (x, y) -> Printf.sprintf "r%x-%x" (int_of_n x) (int_of_n y)
          in
          Printf.sprintf "(C %d (%s) %s)" (if neg then 1 else 0) (String.concat " " (L.map arch a)) (span_text sp)
      | Token.LOne -> Printf.sprintf "(O %s)" (span_text sp)
      | Token.LZom lazy_ -> Printf.sprintf "(Z %d %s)" (if lazy_ then 1 else 0) (span_text sp)
      | Token.LTree root -> Printf.sprintf "(T %d %s)" (if root then 1 else 0) (span_text sp))
  | Token.TAlt (sp, bs) -> Printf.sprintf "(A (%s) %s)" (String.concat " " (L.map tree_text bs)) (span_text sp)
  | Token.TCat (sp, ts) -> Printf.sprintf "(K (%s) %s)" (String.concat " " (L.map tree_text ts)) (span_text sp)
  | Token.TRep (sp, b, lo, hi) ->
      Printf.sprintf "(R %s %s %s %s)" (string_of_n lo)
        (match hi with Some h -> string_of_n h | None -> "-")
        (tree_text b) (span_text sp)

let when_text (w : Variance.coq_when) : string =
  match w with Variance.Always -> "A" | Variance.Sometimes -> "S" | Variance.Never -> "N"

let bound_text (b : Variance.nbound) : string =
  match b with Variance.NBNum n -> string_of_n n | _ -> "-"

let depth_text (v : Variance.nvar) : string option =
  match v with
  | Variance.Inv n -> Some ("I" ^ string_of_n n)
  | Variance.Var Variance.Unbounded -> Some "V-..-"
  | Variance.Var (Variance.Bounded r) -> (
      match Variance.bvr_upper r with
      | Base.Ok u -> Some (Printf.sprintf "V%s..%s" (bound_text (Variance.bvr_lower r)) (bound_text u))
      | Base.Panic _ -> None)

let text_text (v : Variance.tvar) : string =
  match v with
  | Variance.Inv t -> "I" ^ hex_of_str (Variance.text_to_string t)
  | Variance.Var _ -> "V"

let field (name : string) (v : string option) : string =
  match v with Some s -> Printf.sprintf "\t%s=%s" name s | None -> Printf.sprintf "\t%s=!" name

let res_opt (r : 'a Base.res) : 'a option = match r with Base.Ok a -> Some a | Base.Panic _ -> None
let ( >>= ) o f = match o with Some a -> f a | None -> None

let program_fields (t : Token.tok) : string =
  field "depth" (res_opt (Fold.depth_variance t) >>= depth_text)
  ^ field "text" (res_opt (Fold.text_variance has_casing t) >>= fun v -> Some (text_text v))
  ^ field "root" (Some (when_text (Fold.has_root t)))
  ^ field "exh" (res_opt (Fold.is_exhaustive t) >>= fun w -> Some (when_text w))

let caps_text (t : Token.tok) : string =
  String.concat ";"
    (L.map
       (fun (i, (s, n)) -> Printf.sprintf "%s:%s,%s" (string_of_n i) (string_of_n s) (string_of_n n))
       (Query.captures t))

let program_hex (r : Regex.re) : string = hex_of_str (Regex.print_program r)

let glob_report (t : Token.tok) (r : Regex.re) : string =
  "ok" ^ field "tree" (Some (tree_text t)) ^ field "re" (Some (program_hex r)) ^ program_fields t
  ^ field "caps" (Some (caps_text t))
  ^ field "sem" (Some (if Query.has_semantic_literals t then "1" else "0"))
  ^ field "empty" (Some (if Token.tok_is_empty t then "1" else "0"))
  ^ field "comps"
      (let rs = Query.component_programs t in
       if L.for_all Glob.compile_ok rs then Some (String.concat ";" (L.map program_hex rs)) else None)

let spans_text (l : Token.span list) : string =
  String.concat ";" (L.map (fun (s, n) -> Printf.sprintf "%s,%s" (string_of_n s) (string_of_n n)) l)

let kind_text (k : Rule.rule_kind) : string =
  match k with
  | Rule.RootedSubGlob -> "RootedSubGlob"
  | Rule.SingularTree -> "SingularTree"
  | Rule.SingularZeroOrMore -> "SingularZeroOrMore"
  | Rule.AdjacentBoundary -> "AdjacentBoundary"
  | Rule.AdjacentZeroOrMore -> "AdjacentZeroOrMore"
  | Rule.OversizedInvariant -> "OversizedInvariant"
  | Rule.IncompatibleBounds -> "IncompatibleBounds"

let error_text (b : Glob.build_result) : string =
  match b with
  | Glob.BuildParseErr locs -> "perr " ^ spans_text locs
  | Glob.BuildRuleErr (k, sp) -> Printf.sprintf "rerr %s %s" (kind_text k) (spans_text [sp])
  | Glob.BuildPanic _ -> "panic"
  | Glob.BuildFuel -> "model-out-of-fuel"
  | Glob.BuildOk _ -> assert false

let cmd_glob args =
  let e = to_str (unhex (L.hd args)) in
  match Glob.build e with Glob.BuildOk (t, r) -> glob_report t r | b -> error_text b

let cmd_parse args =
  let e = to_str (unhex (L.hd args)) in
  match Parse.parse e with
  | Parse.ParseOk t -> "ok" ^ field "tree" (Some (tree_text t))
  | Parse.ParseErr _ -> "perr"
  | Parse.ParseFuel -> "model-out-of-fuel"

(* ---- matching ----------------------------------------------------------------------------------------- *)
let rec sum_lo (r : Regex.re) : int =
  match r with
  | Regex.RCat (a, b) | Regex.RAlt (a, b) -> sum_lo a + sum_lo b
  | Regex.ROpt a | Regex.RStar (_, a) | Regex.RGroup (_, a) -> sum_lo a
  | Regex.RRep (a, lo, _) -> (int_of_n lo + 1) * (sum_lo a + 1)
  | _ -> 0

(* byte offset of every character index of the path *)
let byte_offsets (cps : int list) : int array =
  let n = L.length cps in
  let a = Array.make (n + 1) 0 in
  L.iteri (fun i c -> a.(i + 1) <- a.(i) + (if c < 0x80 then 1 else if c < 0x800 then 2 else if c < 0x10000 then 3 else 4)) cps;
  a

let run_match (r : Regex.re) (ncaps : int) (path : string) : string =
  let cps = decode path in
  let w = L.map n_of_int cps in
  let len = L.length w in
  (* Regex.run = the matcher with the fuel Regex.need, proved to decide the language (MatcherFacts.accepts_spec) *)
  match Regex.run orbit r w with
  | None -> "0"
  | Some caps ->
      let off = byte_offsets cps in
      let b = Buffer.create 64 in
      Buffer.add_string b (Printf.sprintf "1 0,%d" off.(len));
      for g = 0 to ncaps - 1 do
        match Regex.get_cap (nat_of_int g) caps with
        | Some (s, e) -> Buffer.add_string b (Printf.sprintf ";%d,%d" off.(int_of_nat s) off.(int_of_nat e))
        | None -> Buffer.add_string b ";-"
      done;
      Buffer.add_string b ";-";
      Buffer.contents b

let full_match (r : Regex.re) (w : coq_N list) : bool = Regex.accepts orbit r w

let cmd_match args =
  match args with
  | [e; p] -> (
      match Glob.build (to_str (unhex e)) with
      | Glob.BuildOk (t, r) -> run_match r (L.length (Query.captures t)) (unhex p)
      | Glob.BuildPanic _ -> "panic"
      | Glob.BuildFuel -> "model-out-of-fuel"
      | _ -> "err")
  | _ -> failwith "match: bad arguments"

(* is the capture assignment [expected] (the text `1 0,n;s,e;...;-` of run_match) the assignment of *some* successful parse of the
   path by the program?  The matcher enumerates the parses in backtracking order; the final continuation rejects every parse
   whose assignment differs, so the search visits all of them (within the time budget). *)
let run_caps_ok (r : Regex.re) (ncaps : int) (path : string) (expected : string) : string =
  let cps = decode path in
  let w = L.map n_of_int cps in
  let len = L.length w in
  let off = byte_offsets cps in
  let parts = String.split_on_char ';' expected in
  (match parts with
   | first :: rest when first = Printf.sprintf "1 0,%d" off.(len) && L.length rest = ncaps + 1 ->
       let want = Array.of_list (L.filteri (fun i _ -> i < ncaps) rest) in
       let total = nat_of_int len in
       let fuel = Regex.need r total in
       let agrees c =
         let ok = ref true in
         Array.iteri (fun g wtxt ->
           let got = match Regex.get_cap (nat_of_int g) c with
             | Some (s, e) -> Printf.sprintf "%d,%d" off.(int_of_nat s) off.(int_of_nat e)
             | None -> "-" in
           if got <> wtxt then ok := false) want;
         !ok in
       let k w' c = match w' with [] -> if agrees c then Some c else None | _ -> None in
       (match Regex.m orbit total fuel r Datatypes.O w [] k with Some _ -> "1" | None -> "0")
   | _ -> "0")

let cmd_capsok args =
  match args with
  | [e; p; x] -> (
      match Glob.build (to_str (unhex e)) with
      | Glob.BuildOk (t, r) -> run_caps_ok r (L.length (Query.captures t)) (unhex p) (unhex x)
      | Glob.BuildPanic _ -> "panic"
      | Glob.BuildFuel -> "model-out-of-fuel"
      | _ -> "err")
  | _ -> failwith "capsok: bad arguments"

let max_bound (t : Token.tok) : int =
  let rec go t = match t with
    | Token.TLeaf _ -> 0
    | Token.TAlt (_, bs) | Token.TCat (_, bs) -> L.fold_left (fun a b -> max a (go b)) 0 bs
    | Token.TRep (_, b, lo, hi) ->
        let cap n = match n with N0 -> 0 | Npos _ -> (try (let s = string_of_n n in if String.length s > 6 then 1000000 else int_of_string s) with _ -> 1000000) in
        max (go b) (max (cap lo) (match hi with Some h -> cap h | None -> 0))
  in go t

let cmd_mm args =
  match args with
  | e :: ps -> (
      match Glob.build (to_str (unhex e)) with
      | Glob.BuildOk (t, r) ->
          let n = L.length (Query.captures t) in
          String.concat "|" (L.map (fun p -> run_match r n (unhex p)) ps)
      | Glob.BuildPanic _ -> "panic"
      | Glob.BuildFuel -> "model-out-of-fuel"
      | _ -> "err")
  | _ -> failwith "mm: bad arguments"

(* the documented language (Spec.spec_match) on the parsed tree, and the classes of the tree *)
let lang_of_tree (t : Token.tok) (ps : string list) : string =
  if max_bound t > 64 then "skip"
  else String.concat "|" (L.map (fun p -> if Spec.spec_match orbit t (to_str (unhex p)) then "1" else "0") ps)

let cls_text (t : Token.tok) : string =
  let b x = if x then 1 else 0 in
  Printf.sprintf "exact=%d closedvar=%d stable=%d rft=%d revrange=%d endsep=%d fnull=%d optrep=%d" (b (Spec.trees_exact t)) (b (Fold.depth_closed_variant t)) (b (Spec.trees_stable t))
    (b (Spec.rooted_first_tree t)) (b (Spec.has_reversed_range t)) (b (Spec.may_end_sep t)) (b (Spec.fnull t))
    (b (Spec.has_optional_rep t))

let cmd_lang args =
  match args with
  | e :: ps -> (
      match Glob.build (to_str (unhex e)) with
      | Glob.BuildOk (t, _) -> cls_text t ^ "\t" ^ lang_of_tree t ps
      | Glob.BuildPanic _ -> "panic"
      | Glob.BuildFuel -> "model-out-of-fuel"
      | _ -> "err")
  | _ -> failwith "lang: bad arguments"

(* the classes alone, on the parsed tree (no rule check, no program: cheap even when matching is not) *)
let cmd_cls args =
  match args with
  | [ e ] -> (
      match Parse.parse (to_str (unhex e)) with
      | Parse.ParseOk t -> cls_text t
      | Parse.ParseFuel -> "model-out-of-fuel"
      | _ -> "err")
  | _ -> failwith "cls: bad arguments"

(* ---- any / not ------------------------------------------------------------------------------------------ *)
exception Build_failed of string

let build_all (es : string list) : Token.tok list =
  L.map
    (fun e ->
      match Glob.build (to_str (unhex e)) with
      | Glob.BuildOk (t, _) -> t
      | b -> raise (Build_failed (error_text b)))
    es

let any_of (es : string list) : (Token.tok * Regex.re, string) result =
  match build_all es with
  | exception Build_failed msg -> Error msg
  | ts -> (
      match Query.any_tree ts with
      | Base.Panic _ -> Error "panic"
      | Base.Ok t ->
          let r = Encode.encode t in
          if Glob.compile_ok r then Ok (t, r) else Error "panic")

let cmd_any args =
  match any_of args with
  | Error msg -> msg
  | Ok (t, r) -> "ok" ^ field "tree" (Some (tree_text t)) ^ field "re" (Some (program_hex r)) ^ program_fields t

(* a combinator of combinators: groups of expressions separated by "-" *)
let cmd_anyn args =
  match args with
  | p :: rest -> (
      let groups =
        L.rev (L.map L.rev (L.fold_left (fun acc a -> if a = "-" then [] :: acc else (match acc with g :: r -> (a :: g) :: r | [] -> [[a]])) [[]] rest))
      in
      match
        L.map (fun g -> match build_all g with ts -> (match Query.any_tree ts with Base.Ok t -> t | Base.Panic _ -> raise (Build_failed "panic"))) groups
      with
      | exception Build_failed "panic" -> "panic"
      | exception Build_failed _ -> "err"
      | inner -> (
          match Query.any_tree inner with
          | Base.Panic _ -> "panic"
          | Base.Ok t ->
              let r = Encode.encode t in
              if not (Glob.compile_ok r) then "panic"
              else
                Printf.sprintf "ok\tm=%s" (if full_match r (to_str (unhex p)) then "1" else "0")
                ^ field "tree" (Some (tree_text t)) ^ program_fields t))
  | _ -> failwith "anyn: bad arguments"

let cmd_anymatch args =
  match args with
  | p :: es -> (
      match any_of es with
      | Error "panic" -> "panic"
      | Error _ -> "err"
      | Ok (_, r) -> run_match r 1 (unhex p))
  | _ -> failwith "anymatch: bad arguments"

let rec split_at k l = if k = 0 then ([], l) else match l with x :: r -> let (a, b) = split_at (k - 1) r in (x :: a, b) | [] -> ([], [])

let cmd_anymm args =
  match args with
  | k :: rest -> (
      let es, ps = split_at (int_of_string k) rest in
      match any_of es with
      | Error "panic" -> "panic"
      | Error _ -> "err"
      | Ok (_, r) -> String.concat "|" (L.map (fun p -> run_match r 1 (unhex p)) ps))
  | _ -> failwith "anymm: bad arguments"

let cmd_anylang args =
  match args with
  | k :: rest -> (
      let es, ps = split_at (int_of_string k) rest in
      match any_of es with
      | Error "panic" -> "panic"
      | Error _ -> "err"
      | Ok (t, _) -> cls_text t ^ "\t" ^ lang_of_tree t ps)
  | _ -> failwith "anylang: bad arguments"

let cmd_not args =
  let tree =
    match args with
    | [e] -> (
        match Glob.build (to_str (unhex e)) with
        | Glob.BuildOk (t, _) -> Ok t
        | Glob.BuildPanic _ -> Error "panic"
        | _ -> Error "err")
    | es -> (
        match any_of es with Ok (t, _) -> Ok t | Error "panic" -> Error "panic" | Error _ -> Error "err")
  in
  match tree with
  | Error msg -> msg
  | Ok t -> (
      match Query.not_partition t with
      | Base.Panic _ -> "panic"
      | Base.Ok (ex, nx) ->
          let pat o =
            match o with
            | None -> Some "-"
            | Some t ->
                let r = Encode.encode t in
                if Glob.compile_ok r then Some (program_hex r) else None
          in
          (match (pat ex, pat nx) with
          | Some a, Some b -> Printf.sprintf "ok\texh=%s\tnonexh=%s" a b
          | _ -> "panic"))

(* ---- partition -------------------------------------------------------------------------------------------- *)
let cmd_part args =
  let e = to_str (unhex (L.hd args)) in
  match Glob.build e with
  | Glob.BuildPanic _ -> "panic"
  | Glob.BuildFuel -> "model-out-of-fuel"
  | Glob.BuildOk (t, _) -> (
      match Query.partition has_casing e t with
      | Base.Panic _ -> "panic"
      | Base.Ok (Query.PartNone prefix) -> Printf.sprintf "ok\tprefix=%s\tpost=-\toprefix=%s\topost=-" (hex_of_str prefix) (hex_of_str prefix)
      | Base.Ok (Query.PartSome (prefix, post, pe)) ->
          let r = Encode.encode post in
          if not (Glob.compile_ok r) then "panic"
          else
            let repart =
              match Query.partition has_casing pe post with
              | Base.Panic _ -> None
              | Base.Ok (Query.PartNone p2) -> Some (Printf.sprintf "%s|-" (hex_of_str p2))
              | Base.Ok (Query.PartSome (p2, post2, pe2)) ->
                  if Glob.compile_ok (Encode.encode post2) then Some (Printf.sprintf "%s|%s" (hex_of_str p2) (hex_of_str pe2))
                  else None
            in
            Printf.sprintf "ok\tprefix=%s\tpost=%s" (hex_of_str prefix) (hex_of_str pe)
            ^ field "ptree" (Some (tree_text post))
            ^ field "pre" (Some (program_hex r))
            ^ field "proot" (Some (when_text (Fold.has_root post)))
            ^ field "pcaps" (Some (caps_text post))
            ^ field "repart" repart
            (* partitioning the owned glob: ownership does not exist in the model (OwnedFacts: annotations and ownership are
               irrelevant to every observable), so the owned route repeats the borrowed one *)
            ^ field "oprefix" (Some (hex_of_str prefix))
            ^ field "opost" (Some (hex_of_str pe))
            ^ field "optree" (Some (tree_text post))
            ^ field "opre" (Some (program_hex r))
            ^ field "opcaps" (Some (caps_text post)))
  | _ -> "err"

(* ---- escape and character tables ---------------------------------------------------------------------------- *)
let cmd_esc args = hex_of_str (Query.escape (to_str (unhex (L.hd args))))

let is_scalar c = c < 0xd800 || (c > 0xdfff && c < 0x110000)
let range args =
  match args with
  | [lo; hi] ->
      let lo = int_of_string lo and hi = int_of_string hi in
      L.filter is_scalar (L.init (max 0 (hi - lo)) (fun i -> lo + i))
  | _ -> failwith "bad range"
let list_text l = String.concat "," (L.map string_of_int l)

let cmd_meta args =
  let r = range args in
  Printf.sprintf "meta=%s\tctx=%s"
    (list_text (L.filter (fun c -> Query.is_meta_character (n_of_int c)) r))
    (list_text (L.filter (fun c -> Query.is_contextual_meta_character (n_of_int c)) r))

let cmd_special args =
  list_text
    (L.filter
       (fun c ->
         let n = n_of_int c in
         match Parse.parse [n] with
         | Parse.ParseOk (Token.TCat (_, [Token.TLeaf (_, Token.LLit (false, [d]))])) -> int_of_n d <> c
         | _ -> true)
       (range args))

(* ---- main ------------------------------------------------------------------------------------------------------ *)
let dispatch (line : string) : string =
  match String.split_on_char ' ' line with
  | [] -> ""
  | cmd :: args -> (
      match cmd with
      | "glob" -> cmd_glob args
      | "parse" -> cmd_parse args
      | "match" -> cmd_match args
      | "any" -> cmd_any args
      | "anymatch" -> cmd_anymatch args
      | "mm" -> cmd_mm args
      | "capsok" -> cmd_capsok args
      | "anymm" -> cmd_anymm args
      | "anyn" -> cmd_anyn args
      | "lang" -> cmd_lang args
      | "cls" -> cmd_cls args
      | "anylang" -> cmd_anylang args
      | "not" -> cmd_not args
      | "part" -> cmd_part args
      | "esc" -> cmd_esc args
      | "meta" -> cmd_meta args
      | "special" -> cmd_special args
      | "walk" -> Walkdriver.cmd_walk has_casing args
      | _ -> "unknown-command " ^ cmd)

exception Budget
let budget_s = try int_of_string (Sys.getenv "WAXMODEL_BUDGET") with _ -> 3

let () =
  Sys.set_signal Sys.sigalrm (Sys.Signal_handle (fun _ -> raise Budget));
  Walkdriver.to_str := to_str; Walkdriver.of_str := of_str; Walkdriver.unhex := unhex; Walkdriver.hex := hex;
  Walkdriver.nat_of_int := nat_of_int; Walkdriver.int_of_nat := int_of_nat; Walkdriver.full_match := full_match;
  let dir = if Array.length Sys.argv > 1 then Sys.argv.(1) else "." in
  load_tables dir;
  try
    while true do
      let line = input_line stdin in
      let line = String.trim line in
      if line = "" then print_newline ()
      else begin
        let out =
          try
            ignore (Unix.alarm budget_s);
            let r = dispatch line in
            ignore (Unix.alarm 0); r
          with
          | Stack_overflow -> ignore (Unix.alarm 0); "model-stack-overflow"
          | Budget -> "model-timeout"
        in
        print_string out;
        print_newline ()
      end
    done
  with End_of_file -> ()
