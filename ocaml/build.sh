#!/bin/bash
# Extracts the Coq model to OCaml and builds the model driver.
set -e
cd "$(dirname "$0")"
OUT=${1:-/verif/.cache/ocaml}
mkdir -p "$OUT/gen"
( cd "$OUT/gen" && rm -f *.ml *.mli && coqc -Q /verif/coq/theories WaxModel /verif/coq/extract/Extract.v > /dev/null 2>"$OUT/extract.log" ) || { cat "$OUT/extract.log"; exit 1; }
rm -f /verif/coq/extract/*.vo /verif/coq/extract/*.vok /verif/coq/extract/*.vos /verif/coq/extract/*.glob /verif/coq/extract/.*.aux
cp walkdriver.ml driver.ml "$OUT/"
cd "$OUT"
ORDER=$(ocamlfind ocamldep -sort -I gen gen/*.mli gen/*.ml walkdriver.ml driver.ml)
ocamlfind ocamlopt -package unix -linkpkg -O3 -w -a -I gen $ORDER -o waxmodel 2>/dev/null || ocamlfind ocamlopt -package unix -linkpkg -w -a -I gen $ORDER -o waxmodel
echo "built $OUT/waxmodel"
